package main

import (
	"encoding/json"
	"math/big"
	"time"

	"verif/evmkit"

	"github.com/dappledger/AnnChain/chain/app/evm"
	"github.com/dappledger/AnnChain/eth/common"
	ecore "github.com/dappledger/AnnChain/eth/core"
	crypto "github.com/dappledger/AnnChain/gemmill/go-crypto"
	gtypes "github.com/dappledger/AnnChain/gemmill/types"
)

// Accounts of the workloads (deterministic keys).  A, C and V are funded by the
// harness genesis (the repository's genesis allocates nothing and nothing
// mints, so without it every transfer would be invalid).
var (
	accA = evmkit.Key(1) // warm-up + evm: creates Store, calls it, transfers to B
	accB = evmkit.Key(2) // receives
	accC = evmkit.Key(3) // evm: creates a second Store and calls it in the same block
	accK = evmkit.Key(5) // kv
	accV = evmkit.Key(6) // admin operation (validator-set change)
)

var (
	storeA = evmkit.CreatedAddress(accA.Addr, 0)
	storeC = evmkit.CreatedAddress(accC.Addr, 0)
	keyK1  = []byte("c06/k1")
	keyK2  = []byte("c06/k2")
	keyNo  = []byte("c06/never-written")
)

const newPower = 130 // valset workload: the validator raises its own power 100 → 130

func fundedAlloc() map[common.Address]*big.Int {
	one := new(big.Int).Exp(big.NewInt(10), big.NewInt(18), nil)
	return map[common.Address]*big.Int{accA.Addr: one, accC.Addr: new(big.Int).Set(one), accV.Addr: new(big.Int).Set(one)}
}

// writeFundedGenesis writes core.DefaultGenesis() + balances into the
// application's state database and records it as last block 0 (the application
// then skips its own writeGenesis), using the repository's own functions.
func writeFundedGenesis(dbDir string) error {
	db, err := evm.OpenDatabase(dbDir, "chaindata", evm.DatabaseCache, evm.DatabaseHandles)
	if err != nil {
		return err
	}
	g := ecore.DefaultGenesis()
	for a, bal := range fundedAlloc() {
		g.Alloc[a] = ecore.GenesisAccount{Balance: bal}
	}
	blk := g.ToBlock(db)
	db.Close()
	var ba gtypes.BaseApplication
	if err := ba.InitBaseApplication(evm.AppName, dbDir); err != nil {
		return err
	}
	ba.SaveLastBlock(evm.LastBlockInfo{Height: 0, AppHash: blk.Root().Bytes()})
	ba.Stop()
	return nil
}

type workload struct {
	kind    string
	batches map[int64][][]byte // block height → transactions handed in when that height starts
	all     [][]byte
}

func (w *workload) batch(h int64) [][]byte { return w.batches[h] }

// buildWorkload: blocks 1–2 warm-up, block 3 of the given kind, later blocks empty.
func buildWorkload(kind string, pv *gtypes.PrivValidator) *workload {
	w := &workload{kind: kind, batches: map[int64][][]byte{}}
	// warm-up (all kinds): a contract, a call, a transfer
	w.batches[1] = [][]byte{evmkit.Create(accA, 0, evmkit.StoreInit())}
	w.batches[2] = [][]byte{
		evmkit.Call(accA, 1, storeA, evmkit.StoreSet(5)),
		evmkit.Transfer(accA, 2, accB.Addr, big.NewInt(1000)),
	}
	evmBatch := func() [][]byte {
		return [][]byte{
			evmkit.Transfer(accA, 3, accB.Addr, big.NewInt(777)),
			evmkit.Call(accA, 4, storeA, evmkit.StoreSet(7)),
			evmkit.Create(accC, 0, evmkit.StoreInit()),
			evmkit.Call(accC, 1, storeC, evmkit.StorePut(9)),
		}
	}
	kvBatch := func() [][]byte {
		return [][]byte{
			evmkit.KVPut(accK, 1, keyK1, []byte("v1")),
			evmkit.KVPut(accK, 2, keyK1, []byte("v2")), // overwrite within the block
			evmkit.KVPut(accK, 3, keyK2, []byte("w")),
		}
	}
	switch kind {
	case "empty":
	case "evm":
		w.batches[3] = evmBatch()
	case "kv":
		w.batches[2] = append(w.batches[2], evmkit.KVPut(accK, 0, keyK1, []byte("v0"))) // overwritten across blocks
		w.batches[3] = kvBatch()
	case "mixed":
		w.batches[2] = append(w.batches[2], evmkit.KVPut(accK, 0, keyK1, []byte("v0")))
		w.batches[3] = append(evmBatch(), kvBatch()...)
	case "valset":
		w.batches[3] = [][]byte{adminUpdateOwnPower(pv, accV, 0, newPower)}
	default:
		die("unknown workload %q", kind)
	}
	for h := int64(1); h <= 3; h++ {
		w.all = append(w.all, w.batches[h]...)
	}
	return w
}

// adminUpdateOwnPower builds the admin-operation transaction the client's
// `admin` command produces: a call of the governance contract at core.AdminTo
// carrying an AdminOPCmd(changeValidator, update_node) signed by the validator
// itself (it holds 100% of the voting power, so CheckMajor23 is satisfied).
func adminUpdateOwnPower(pv *gtypes.PrivValidator, from *evmkit.Account, nonce uint64, power int64) []byte {
	pub := crypto.GetNodePubkeyBytes(pv.GetPubKey())
	msg, err := json.Marshal(&gtypes.ValidatorAttr{PubKey: pub, Cmd: gtypes.ValidatorCmdUpdateNode, Power: power, Nonce: nonce, Addr: from.Addr.Bytes()})
	if err != nil {
		die("marshal: %v", err)
	}
	sig := crypto.GetNodeSigBytes(pv.GetPrivKey().Sign(msg))
	cmd := &gtypes.AdminOPCmd{
		CmdType:  gtypes.AdminOpChangeValidator,
		Msg:      msg,
		SelfSign: sig,
		Time:     time.Unix(1600000000, 0).UTC(),
		SInfos:   []gtypes.SigInfo{{PubKey: pub, Signature: sig}},
	}
	op, err := json.Marshal(cmd)
	if err != nil {
		die("marshal: %v", err)
	}
	return evmkit.AdminOp(from, nonce, op)
}
