// vnode — the real AnnChain node (chain/core.NewNode: angine + pbft consensus +
// EVM application, LevelDB back ends, loopback p2p listener) as a subprocess of
// the CRASHNODE checks (DESIGN §4.4).  Built with -tags verif so that the
// durable-write failpoints of utils/verifhook are active.
//
//	vnode reference -dir D -workload W [-until H] -out F   run the workload, dump at height H, then idle (parent kills)
//	vnode writelog  -dir D -workload W -log L [-until H] -out F   same + durable-write log of heights 3..4
//	vnode crash     -dir D -workload W -k K -log L          exit(86) immediately before the K-th durable write after arming
//	vnode restart   -dir D -workload W [-k2 K2] -log L -out F   restart the SAME directory (recovery run); counts writes from
//	                                                        process start; commits two further blocks; dumps; idles
//	vnode reexec    -dir D -scratch S [-lifetimes a,b]      offline: inspect the stores of D and re-execute its chain on a fresh application
//	vnode inspect   -dir D                                  offline: inspect only
//
// stdout protocol (one JSON document per line, prefixed by a keyword):
//
//	PEEK {..}      persisted stores as found at process start (restart only)
//	START {..}     heights right after NewNode (i.e. after RecoverFromCrash)
//	COMMIT {..}    one line per committed block
//	ARMED / WRITES n / RECOVERED {..}
//	SUBMIT {..}    result of handing a batch to Angine.BroadcastTx
//	STALL {..}     no commit for a while: consensus round state (diagnostics only)
//	DUMPED         the dump file is complete; the process now idles with the consensus goroutine parked
//	REEXEC {..}    result of reexec / inspect
package main

import (
	"encoding/json"
	"flag"
	"fmt"
	"os"
	"path/filepath"
	"strconv"
	"strings"
	"sync"
	"time"

	"github.com/spf13/viper"

	"github.com/dappledger/AnnChain/chain/app"
	"github.com/dappledger/AnnChain/chain/app/evm"
	"github.com/dappledger/AnnChain/chain/core"
	"github.com/dappledger/AnnChain/gemmill"
	"github.com/dappledger/AnnChain/gemmill/config"
	crypto "github.com/dappledger/AnnChain/gemmill/go-crypto"
	gtypes "github.com/dappledger/AnnChain/gemmill/types"
	"github.com/dappledger/AnnChain/utils/verifhook"
)

const chainID = "verif-c06"

var outMu sync.Mutex

// say prints one protocol line.
func say(kw string, v interface{}) {
	outMu.Lock()
	defer outMu.Unlock()
	if v == nil {
		fmt.Fprintln(os.Stdout, kw)
		return
	}
	b, err := json.Marshal(v)
	if err != nil {
		b = []byte(fmt.Sprintf("%q", err.Error()))
	}
	fmt.Fprintf(os.Stdout, "%s %s\n", kw, b)
}

func die(format string, a ...interface{}) {
	fmt.Fprintf(os.Stderr, "VNODE-INTERNAL: "+format+"\n", a...)
	os.Exit(3)
}

type options struct {
	mode     string
	dir      string
	workload string
	until    int64
	k        int
	k2       int
	log      string
	out      string
	scratch  string
	life     string
}

func main() {
	if len(os.Args) < 2 {
		die("usage: vnode reference|writelog|crash|restart|reexec|inspect ...")
	}
	o := &options{mode: os.Args[1]}
	fs := flag.NewFlagSet("vnode", flag.ExitOnError)
	fs.StringVar(&o.dir, "dir", "", "runtime directory")
	fs.StringVar(&o.workload, "workload", "empty", "workload kind")
	fs.Int64Var(&o.until, "until", 6, "dump when this height is committed")
	fs.IntVar(&o.k, "k", 0, "crash before the k-th armed write")
	fs.IntVar(&o.k2, "k2", 0, "restart: crash before the k2-th write of the recovery run")
	fs.StringVar(&o.log, "log", "", "write log file")
	fs.StringVar(&o.out, "out", "", "dump file")
	fs.StringVar(&o.scratch, "scratch", "", "reexec: fresh directory")
	fs.StringVar(&o.life, "lifetimes", "", "reexec: heights after which the application is re-opened")
	fs.Parse(os.Args[2:])
	if o.dir == "" {
		die("-dir is required")
	}

	// The failpoint package reads its environment lazily (first Write/Arm), so
	// the mode is translated into its variables here.
	os.Unsetenv("VERIF_CRASH_AT")
	os.Unsetenv("VERIF_FAIL_AT")
	os.Unsetenv("VERIF_WRITELOG")
	os.Unsetenv("VERIF_ARMED")
	switch o.mode {
	case "reference":
		os.Setenv("VERIF_ARMED", "0")
	case "writelog":
		os.Setenv("VERIF_ARMED", "0")
		os.Setenv("VERIF_WRITELOG", o.log)
	case "crash":
		if o.k <= 0 {
			die("crash needs -k")
		}
		os.Setenv("VERIF_ARMED", "0")
		os.Setenv("VERIF_CRASH_AT", strconv.Itoa(o.k))
		if o.log != "" {
			os.Setenv("VERIF_WRITELOG", o.log)
		}
	case "restart":
		// armed from the first write of the process: the recovery run is the
		// object of the second-level enumeration
		if o.k2 > 0 {
			os.Setenv("VERIF_CRASH_AT", strconv.Itoa(o.k2))
		}
		if o.log != "" {
			os.Setenv("VERIF_WRITELOG", o.log)
		}
	case "reexec", "inspect":
		os.Setenv("VERIF_ARMED", "0")
		runOffline(o)
		return
	default:
		die("unknown mode %q", o.mode)
	}
	runNode(o)
}

// ---------------------------------------------------------------- runtime directory

func nodeConf(dir string) *viper.Viper {
	conf, err := config.ReadConfig(dir)
	if err != nil {
		die("ReadConfig: %v", err)
	}
	// what an operator would pass on the command line / environment; identical
	// at every start of the directory
	conf.Set("pex_reactor", false)
	conf.Set("mempool_broadcast", false)
	conf.Set("timeout_propose", 5000)
	conf.Set("timeout_propose_delta", 100)
	conf.Set("timeout_prevote", 100)
	conf.Set("timeout_prevote_delta", 50)
	conf.Set("timeout_precommit", 100)
	conf.Set("timeout_precommit_delta", 50)
	conf.Set("timeout_commit", 30)
	conf.Set("skip_timeout_commit", false)
	conf.Set("log_path", filepath.Join(dir, "node.log"))
	conf.Set("audit_log_path", filepath.Join(dir, "audit.log"))
	return conf
}

func initRuntime(dir string) {
	conf := viper.New()
	conf.Set("app_name", "evm")
	conf.Set("p2p_laddr", "tcp://127.0.0.1:0")
	conf.Set("rpc_laddr", "")
	conf.Set("seeds", "")
	conf.Set("fast_sync", false)
	conf.Set("auth_by_ca", false)
	conf.Set("skip_upnp", true)
	conf.Set("db_backend", "leveldb")
	conf.Set("threshold_blocks", 0)
	conf.Set("log_path", filepath.Join(dir, "node.log"))
	conf.Set("audit_log_path", filepath.Join(dir, "audit.log"))
	// gemmill.Initialize = what `genesis init` does (config.toml, priv_validator.json, genesis.json)
	stdout := os.Stdout
	devnull, _ := os.OpenFile(os.DevNull, os.O_WRONLY, 0)
	os.Stdout = devnull // it prints two informational lines
	gemmill.Initialize(&gemmill.Tunes{Runtime: dir, Conf: conf}, chainID)
	os.Stdout = stdout
	devnull.Close()
	if err := writeFundedGenesis(filepath.Join(dir, config.DATADIR)); err != nil {
		die("funded genesis: %v", err)
	}
}

// ---------------------------------------------------------------- the node

type runner struct {
	o        *options
	node     *core.Node
	app      *evm.EVMApp
	wl       *workload
	hStart   int64 // Angine.Height() right after NewNode
	hPre     int64 // persisted store height found at process start (restart), else 0
	lastSeen int64
	sent     map[int64]bool
	armedAt  int64
	progress int64 // unix nano of the last commit line
	mu       sync.Mutex
}

func runNode(o *options) {
	fresh := false
	if _, err := os.Stat(filepath.Join(o.dir, config.CONFIGFILE)); err != nil {
		if o.mode == "restart" {
			die("restart: %s has no runtime", o.dir)
		}
		fresh = true
		crypto.NodeInit(crypto.CryptoType)
		initRuntime(o.dir)
	}
	r := &runner{o: o, sent: map[int64]bool{}, lastSeen: -1}
	if o.mode == "restart" {
		pk := inspectDir(o.dir)
		r.hPre = pk.StoreHeight
		say("PEEK", pk)
	}
	_ = fresh

	conf := nodeConf(o.dir)
	// The application is the repository's own (app.AppMap["evm"] = evm.NewEVMApp);
	// the only addition is that its OnNewRound hook (a no-op in the application)
	// first calls the workload driver.  The hook runs while the consensus
	// goroutine waits for its reply, i.e. at a point where the previous height is
	// completely committed and nothing of the next height has started.
	realMaker := app.AppMap["evm"]
	app.AppMap["evm"] = func(c *viper.Viper) (gtypes.Application, error) {
		a, err := realMaker(c)
		if err != nil {
			return nil, err
		}
		ea := a.(*evm.EVMApp)
		r.app = ea
		ea.AngineHooks.OnNewRound = gtypes.NewHook(func(h, round int64, b *gtypes.Block) (interface{}, error) {
			r.onNewRound(h, round)
			return ea.OnNewRound(h, round, b)
		})
		return ea, nil
	}

	node, err := core.NewNode(conf, o.dir, "evm")
	if err != nil {
		fmt.Fprintf(os.Stderr, "VNODE-START-FAILED: NewNode: %v\n", err)
		os.Exit(4)
	}
	r.node = node
	r.wl = buildWorkload(o.workload, node.PrivValidator())
	r.hStart = node.Angine.Height()
	info := r.app.Info()
	sh, _ := node.Angine.GetValidators()
	say("START", map[string]interface{}{"store": r.hStart, "state": sh, "app": info.LastBlockHeight, "mode": o.mode, "workload": o.workload})
	r.progress = time.Now().UnixNano()
	go r.watchdog()
	if err := node.Start(); err != nil {
		fmt.Fprintf(os.Stderr, "VNODE-START-FAILED: Start: %v\n", err)
		os.Exit(4)
	}
	select {}
}

// watchdog prints the consensus round state when no block has been committed
// for a second (diagnostics for the parent; never a verdict).
func (r *runner) watchdog() {
	for {
		time.Sleep(1 * time.Second)
		r.mu.Lock()
		idle := time.Since(time.Unix(0, r.progress))
		r.mu.Unlock()
		if idle > 2*time.Second {
			done := make(chan string, 1)
			go func() {
				rs, _ := r.node.Angine.GetConsensusStateInfo()
				done <- rs
			}()
			select {
			case rs := <-done:
				rs = strings.Join(strings.Fields(rs), " ")
				if len(rs) > 160 {
					rs = rs[:160]
				}
				say("STALL", map[string]interface{}{"idle_ms": idle.Milliseconds(), "store": r.node.Angine.Height(), "round_state": rs})
			case <-time.After(500 * time.Millisecond):
				say("STALL", map[string]interface{}{"idle_ms": idle.Milliseconds(), "round_state": "(consensus mutex held)"})
			}
		}
	}
}

// onNewRound is called (through the application's OnNewRound hook) when the
// consensus state machine enters round `round` of height h: height h-1 is
// committed (block stored, application committed, state saved).
func (r *runner) onNewRound(h, round int64) {
	committed := h - 1
	if committed <= r.lastSeen {
		return // a further round of the same height
	}
	r.lastSeen = committed
	r.mu.Lock()
	r.progress = time.Now().UnixNano()
	r.mu.Unlock()
	ang := r.node.Angine

	if committed >= 1 {
		say("COMMIT", r.commitLine(committed))
	}

	switch r.o.mode {
	case "reference", "writelog", "crash":
		if committed == 2 {
			verifhook.Arm()
			r.armedAt = committed
			say("ARMED", nil)
		}
		if committed == 4 {
			n := verifhook.Count()
			verifhook.Disarm()
			say("WRITES", n)
			if r.o.mode == "crash" {
				os.Exit(7) // k is beyond the armed window
			}
		}
	case "restart":
		// the recovery window ends when two heights beyond the store height found
		// after NewNode have been committed: the height the crash interrupted and
		// the first height that is decided entirely after the restart (a second
		// crash while THAT height commits meets whatever the recovery left behind)
		if r.armedAt == 0 && committed >= r.hStart+2 {
			n := verifhook.Count()
			verifhook.Disarm()
			r.armedAt = -1
			say("RECOVERED", map[string]interface{}{"writes": n, "height": committed})
		}
	}

	// hand the batch meant for block h to the node (exactly what a client does)
	if txs := r.wl.batch(h); len(txs) > 0 && !r.sent[h] {
		r.sent[h] = true
		var errs []string
		ok := 0
		// highest nonce first: the pool promotes an account's queued transactions
		// only when the one with the account's current nonce arrives (or at the
		// next commit), so this order makes the whole batch eligible for block h
		for i := len(txs) - 1; i >= 0; i-- {
			tx := txs[i]
			if err := ang.BroadcastTx(tx); err != nil {
				errs = append(errs, err.Error())
			} else {
				ok++
			}
		}
		say("SUBMIT", map[string]interface{}{"for_height": h, "accepted": ok, "rejected": errs})
	}

	until := r.o.until
	if r.o.mode == "restart" {
		until = r.hPre + 2
		if m := int64(len(r.wl.batches)); until < m {
			until = m // the whole workload must be committed before the final comparison
		}
	}
	if r.o.mode != "crash" && committed >= until {
		d := r.dump(committed)
		b, _ := json.MarshalIndent(d, "", " ")
		if r.o.out != "" {
			tmp := r.o.out + ".tmp"
			if err := os.WriteFile(tmp, b, 0644); err != nil {
				die("write dump: %v", err)
			}
			os.Rename(tmp, r.o.out)
		}
		say("DUMPED", nil)
		// park the consensus goroutine here: the node is idle, every store is at
		// `committed`; the parent kills the process (Node.Stop is never used, DESIGN §7)
		select {}
	}
}
