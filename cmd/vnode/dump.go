package main

import (
	"crypto/sha256"
	"encoding/hex"
	"fmt"
	"math/big"
	"path/filepath"
	"runtime/debug"
	"sort"

	"verif/evmkit"

	"github.com/dappledger/AnnChain/chain/app/evm"
	rtypes "github.com/dappledger/AnnChain/chain/types"
	"github.com/dappledger/AnnChain/eth/common"
	etypes "github.com/dappledger/AnnChain/eth/core/types"
	"github.com/dappledger/AnnChain/eth/rlp"
	"github.com/dappledger/AnnChain/gemmill/blockchain"
	"github.com/dappledger/AnnChain/gemmill/config"
	"github.com/dappledger/AnnChain/gemmill/go-wire"
	dbm "github.com/dappledger/AnnChain/gemmill/modules/go-db"
	"github.com/dappledger/AnnChain/gemmill/state"
	gtypes "github.com/dappledger/AnnChain/gemmill/types"
)

func hx(b []byte) string { return hex.EncodeToString(b) }

func sha(b []byte) string {
	s := sha256.Sum256(b)
	return hex.EncodeToString(s[:])
}

// BlockRec describes one stored block.
type BlockRec struct {
	Height       int64    `json:"height"`
	Readable     bool     `json:"readable"`
	Err          string   `json:"err,omitempty"`
	BytesHash    string   `json:"bytes_hash"` // sha256 of the wire encoding of the loaded block
	BlockHash    string   `json:"block_hash"` // Block.Hash()
	MetaHash     string   `json:"meta_hash"`  // BlockMeta.Hash
	LastBlockID  string   `json:"last_block_id"`
	AppHash      string   `json:"app_hash"`      // header: application hash after height-1
	ReceiptsHash string   `json:"receipts_hash"` // header: receipts hash after height-1
	ValsHash     string   `json:"validators_hash"`
	Txs          []string `json:"txs"` // sha256 of each transaction, in block order
	ExTxs        int      `json:"extxs"`
}

func blockRec(h int64, blk *gtypes.Block, meta *gtypes.BlockMeta) BlockRec {
	r := BlockRec{Height: h}
	if blk == nil {
		r.Err = "LoadBlock returned nil"
		return r
	}
	r.Readable = true
	r.BytesHash = sha(wire.BinaryBytes(blk))
	r.BlockHash = hx(blk.Hash())
	if meta != nil {
		r.MetaHash = hx(meta.Hash)
	}
	if blk.Header != nil {
		r.LastBlockID = hx(blk.Header.LastBlockID.Hash)
		r.AppHash = hx(blk.Header.AppHash)
		r.ReceiptsHash = hx(blk.Header.ReceiptsHash)
		r.ValsHash = hx(blk.Header.ValidatorsHash)
		if blk.Header.Height != h {
			r.Err = fmt.Sprintf("header height %d under key %d", blk.Header.Height, h)
		}
	}
	if blk.Data != nil {
		for _, tx := range blk.Data.Txs {
			r.Txs = append(r.Txs, sha(tx))
		}
		r.ExTxs = len(blk.Data.ExTxs)
	}
	return r
}

// ---------------------------------------------------------------- online dump (through the node's query interfaces)

// AppView is what the application's Query interface says about the accounts,
// contracts and keys of the workloads.
type AppView struct {
	Nonces   map[string]uint64 `json:"nonces"`
	Balances map[string]string `json:"balances"`
	Storage  map[string]string `json:"storage"`
	KV       map[string]string `json:"kv"`
	// per key: the recorded update history (QueryType_Key_Update_History), "total=<n> [h<height>=<value> ...]"
	KVHistory map[string]string `json:"kv_history"`
	Receipts  map[string]string `json:"receipts"` // per workload tx: "none" | "status=<n>"
}

// Dump is the record of one node at a quiescent point.
type Dump struct {
	Height       int64      `json:"height"` // height whose commit triggered the dump
	StoreHeight  int64      `json:"store_height"`
	StateHeight  int64      `json:"state_height"` // state machine (Angine.GetValidators)
	AppHeight    int64      `json:"app_height"`   // application Info()
	AppHash      string     `json:"app_hash"`     // application Info()
	Validators   []string   `json:"validators"`   // state machine's current set: "<address>=<power>"
	ValsHash     string     `json:"validators_hash"`
	Blocks       []BlockRec `json:"blocks"`
	App          AppView    `json:"app"`
	QueryPanics  []string   `json:"query_panics,omitempty"`
	WorkloadTxs  []string   `json:"workload_txs"` // sha256 of every tx of the workload
	HStart, HPre int64
}

func (r *runner) commitLine(h int64) map[string]interface{} {
	ang := r.node.Angine
	sh, _ := ang.GetValidators()
	m := map[string]interface{}{"height": h, "store": ang.Height(), "state": sh, "app": r.app.Info().LastBlockHeight}
	func() {
		defer func() {
			if e := recover(); e != nil {
				m["load_panic"] = fmt.Sprint(e)
			}
		}()
		blk, meta, err := ang.GetBlock(h)
		if err != nil {
			m["load_err"] = err.Error()
			return
		}
		rec := blockRec(h, blk, meta)
		m["bytes_hash"] = rec.BytesHash
		m["ntxs"] = len(rec.Txs)
	}()
	return m
}

func (r *runner) dump(h int64) *Dump {
	ang := r.node.Angine
	d := &Dump{Height: h, HStart: r.hStart, HPre: r.hPre}
	d.StoreHeight = ang.Height()
	sh, vals := ang.GetValidators()
	d.StateHeight = sh
	if vals != nil {
		for _, v := range vals.Validators {
			d.Validators = append(d.Validators, fmt.Sprintf("%x=%d", v.Address, v.VotingPower))
		}
		d.ValsHash = hx(vals.Hash())
	}
	info := r.app.Info()
	d.AppHeight = info.LastBlockHeight
	d.AppHash = hx(info.LastBlockAppHash)
	for i := int64(1); i <= d.StoreHeight; i++ {
		func() {
			defer func() {
				if e := recover(); e != nil {
					d.Blocks = append(d.Blocks, BlockRec{Height: i, Err: "panic: " + fmt.Sprint(e)})
				}
			}()
			blk, meta, err := ang.GetBlock(i)
			if err != nil {
				d.Blocks = append(d.Blocks, BlockRec{Height: i, Err: err.Error()})
				return
			}
			d.Blocks = append(d.Blocks, blockRec(i, blk, meta))
		}()
	}
	d.App = r.appView(&d.QueryPanics)
	for _, tx := range r.wl.all {
		d.WorkloadTxs = append(d.WorkloadTxs, sha(tx))
	}
	return d
}

func (r *runner) query(panics *[]string, what string, q []byte) (res gtypes.Result, ok bool) {
	defer func() {
		if e := recover(); e != nil {
			*panics = append(*panics, fmt.Sprintf("%s: %v\n%s", what, e, debug.Stack()))
			ok = false
		}
	}()
	return r.app.Query(q), true
}

var contractQueryCache = map[string][]byte{}

func contractQuery(to common.Address, data []byte) []byte {
	k := string(to[:]) + string(data)
	if q, ok := contractQueryCache[k]; ok {
		return q
	}
	q := append([]byte{rtypes.QueryType_Contract}, evmkit.Sign(evmkit.Key(0), evmkit.TxSpec{Nonce: 0, To: &to, Gas: evmkit.DefaultGas, Data: data})...)
	contractQueryCache[k] = q
	return q
}

func (r *runner) appView(panics *[]string) AppView {
	v := AppView{Nonces: map[string]uint64{}, Balances: map[string]string{}, Storage: map[string]string{}, KV: map[string]string{}, KVHistory: map[string]string{}, Receipts: map[string]string{}}
	accts := map[string]common.Address{"A": accA.Addr, "B": accB.Addr, "C": accC.Addr, "K": accK.Addr, "V": accV.Addr, "storeA": storeA, "storeC": storeC}
	for name, a := range accts {
		if res, ok := r.query(panics, "nonce "+name, append([]byte{rtypes.QueryType_Nonce}, a.Bytes()...)); ok {
			var n uint64
			rlp.DecodeBytes(res.Data, &n)
			v.Nonces[name] = n
		}
		// the application has no balance query: BALANCE(addr) through the Store fixture created in block 1
		if res, ok := r.query(panics, "balance "+name, contractQuery(storeA, evmkit.StoreBal(a))); ok {
			v.Balances[name] = new(big.Int).SetBytes(res.Data).String()
		}
	}
	for name, c := range map[string]common.Address{"storeA": storeA, "storeC": storeC} {
		for _, slot := range []uint64{0, 2} {
			if res, ok := r.query(panics, "storage", contractQuery(c, evmkit.StoreGetSlot(slot))); ok {
				v.Storage[fmt.Sprintf("%s[%d]", name, slot)] = hx(res.Data)
			}
		}
	}
	for _, k := range [][]byte{keyK1, keyK2, keyNo} {
		if res, ok := r.query(panics, "kv", append([]byte{rtypes.QueryType_Key}, k...)); ok {
			if res.Code != gtypes.CodeType_OK {
				v.KV[string(k)] = "(absent)"
			} else {
				v.KV[string(k)] = string(res.Data)
			}
		}
	}
	for _, k := range [][]byte{keyK1, keyK2, keyNo} {
		// page 1, page size 20 (the largest the application serves; the workloads write a key at most 4 times)
		q := append([]byte{rtypes.QueryType_Key_Update_History, 0, 0, 0, 1, 0, 0, 0, 20}, k...)
		if res, ok := r.query(panics, "kv history", q); ok {
			if res.Code != gtypes.CodeType_OK {
				v.KVHistory[string(k)] = "(query refused)"
				continue
			}
			var hr gtypes.ValueHistoryResult
			if err := rlp.DecodeBytes(res.Data, &hr); err != nil {
				v.KVHistory[string(k)] = "undecodable"
				continue
			}
			// the position of a tx inside its block depends on the order in which the pool offered the
			// accounts (not fixed between two runs): recorded are the count and the (height, value) pairs
			var es []string
			for _, u := range hr.ValueUpdateHistories {
				es = append(es, fmt.Sprintf("h%d=%s", u.BlockHeight, u.Value))
			}
			sort.Strings(es)
			v.KVHistory[string(k)] = fmt.Sprintf("total=%d %v", hr.Total, es)
		}
	}
	for i, tx := range r.wl.all {
		name := fmt.Sprintf("tx%d", i)
		res, ok := r.query(panics, "receipt", append([]byte{rtypes.QueryType_Receipt}, evmkit.TxHash(tx)...))
		if !ok {
			continue
		}
		if res.Code != gtypes.CodeType_OK || len(res.Data) == 0 {
			v.Receipts[name] = "none"
			continue
		}
		var sr etypes.ReceiptForStorage
		if err := rlp.DecodeBytes(res.Data, &sr); err != nil {
			v.Receipts[name] = "undecodable"
		} else {
			v.Receipts[name] = fmt.Sprintf("status=%d logs=%d", sr.Status, len(sr.Logs))
		}
	}
	return v
}

// ---------------------------------------------------------------- offline inspection of the persisted stores

// Inspect is what the three stores of a (not running) runtime directory hold.
type Inspect struct {
	StoreHeight   int64      `json:"store_height"` // blockStore height descriptor
	Blocks        []BlockRec `json:"blocks"`       // every h ≤ StoreHeight
	RawParts      []string   `json:"raw_parts"`    // per block: sha256 over the stored meta ‖ parts ‖ seen commit bytes
	SeenCommit    []bool     `json:"seen_commit"`
	StateHeight   int64      `json:"state_height"`
	StateAppHash  string     `json:"state_app_hash"`
	StateRcptHash string     `json:"state_receipts_hash"`
	StateBlockID  string     `json:"state_last_block_id"`
	StateValsHash string     `json:"state_validators_hash"`
	StateVals     []string   `json:"state_validators"`
	HasInterm     bool       `json:"has_intermediate"`
	AppHeight     int64      `json:"app_height"`
	AppHash       string     `json:"app_hash"`
	Errors        []string   `json:"errors,omitempty"`
}

func inspectDir(dir string) *Inspect {
	in := &Inspect{}
	dbDir := filepath.Join(dir, config.DATADIR)
	guard := func(what string, f func()) {
		defer func() {
			if e := recover(); e != nil {
				in.Errors = append(in.Errors, fmt.Sprintf("%s: panic: %v", what, e))
			}
		}()
		f()
	}
	guard("blockstore", func() {
		db := dbm.NewDB("blockstore", "leveldb", dbDir)
		defer db.Close()
		bs := blockchain.NewBlockStore(db, nil)
		in.StoreHeight = bs.Height()
		for h := int64(1); h <= in.StoreHeight; h++ {
			var rec BlockRec
			raw := sha256.New()
			guard(fmt.Sprintf("block %d", h), func() {
				rec = BlockRec{Height: h, Err: "panic while loading"}
				meta := bs.LoadBlockMeta(h)
				blk := bs.LoadBlock(h)
				rec = blockRec(h, blk, meta)
				raw.Write(db.Get([]byte(fmt.Sprintf("H:%v", h))))
				if meta != nil {
					for i := 0; i < meta.PartsHeader.Total; i++ {
						raw.Write(db.Get([]byte(fmt.Sprintf("P:%v:%v", h, i))))
					}
				}
			})
			in.Blocks = append(in.Blocks, rec)
			in.RawParts = append(in.RawParts, hex.EncodeToString(raw.Sum(nil)))
			sc := false
			guard(fmt.Sprintf("seen commit %d", h), func() { sc = bs.LoadSeenCommit(h) != nil })
			in.SeenCommit = append(in.SeenCommit, sc)
		}
	})
	guard("state", func() {
		db := dbm.NewDB("state", "leveldb", dbDir)
		defer db.Close()
		st := state.LoadState(db)
		if st == nil {
			in.Errors = append(in.Errors, "state: no stateKey record")
			return
		}
		in.StateHeight = st.LastBlockHeight
		in.StateAppHash = hx(st.AppHash)
		in.StateRcptHash = hx(st.ReceiptsHash)
		in.StateBlockID = hx(st.LastBlockID.Hash)
		if st.Validators != nil {
			in.StateValsHash = hx(st.Validators.Hash())
			for _, v := range st.Validators.Validators {
				in.StateVals = append(in.StateVals, fmt.Sprintf("%x=%d", v.Address, v.VotingPower))
			}
		}
		if buf := db.Get([]byte("stateIntermediateKey")); len(buf) > 0 {
			in.HasInterm = true
		}
	})
	guard("application", func() {
		var ba gtypes.BaseApplication
		if err := ba.InitBaseApplication(evm.AppName, dbDir); err != nil {
			in.Errors = append(in.Errors, "application db: "+err.Error())
			return
		}
		defer ba.Stop()
		lb := &evm.LastBlockInfo{}
		res, err := ba.LoadLastBlock(lb)
		if err != nil {
			in.Errors = append(in.Errors, "application lastblock: "+err.Error())
			return
		}
		lb = res.(*evm.LastBlockInfo)
		in.AppHeight = lb.Height
		in.AppHash = hx(lb.AppHash)
	})
	return in
}
