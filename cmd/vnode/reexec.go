package main

import (
	"bytes"
	"fmt"
	"io/ioutil"
	"os"
	"path/filepath"
	"strconv"
	"strings"

	"github.com/spf13/viper"
	"go.uber.org/zap"

	"github.com/dappledger/AnnChain/chain/app/evm"
	"github.com/dappledger/AnnChain/eth/core/vm"
	"github.com/dappledger/AnnChain/gemmill"
	"github.com/dappledger/AnnChain/gemmill/blockchain"
	"github.com/dappledger/AnnChain/gemmill/config"
	crypto "github.com/dappledger/AnnChain/gemmill/go-crypto"
	dbm "github.com/dappledger/AnnChain/gemmill/modules/go-db"
	glog "github.com/dappledger/AnnChain/gemmill/modules/go-log"
	"github.com/dappledger/AnnChain/gemmill/p2p"
	"github.com/dappledger/AnnChain/gemmill/refuse_list"
	"github.com/dappledger/AnnChain/gemmill/state"
	gtypes "github.com/dappledger/AnnChain/gemmill/types"
)

// Mismatch is one recorded hash that the re-execution did not reproduce.
type Mismatch struct {
	Height int64  `json:"height"` // block whose header (or, for "final", the persisted state) holds the hash
	Field  string `json:"field"`  // AppHash | ReceiptsHash | ValidatorsHash | LastBlockID
	Where  string `json:"where"`  // header | final-state
	Want   string `json:"recorded"`
	Got    string `json:"reexecuted"`
}

// Reexec is the result of the offline pass.
type Reexec struct {
	Inspect    *Inspect   `json:"inspect"`
	Blocks     int64      `json:"blocks_reexecuted"`
	Lifetimes  []int64    `json:"lifetimes"`
	Mismatches []Mismatch `json:"mismatches"`
	Error      string     `json:"error,omitempty"`
	FinalApp   string     `json:"final_app_hash"`
	FinalRcpt  string     `json:"final_receipts_hash"`
	FinalVals  string     `json:"final_validators_hash"`
}

type acceptVerifier struct{}

func (acceptVerifier) ValidateBlock(*gtypes.Block) error { return nil }

func runOffline(o *options) {
	glog.SetLog(zap.NewNop())
	crypto.NodeInit(crypto.CryptoType)
	res := &Reexec{Inspect: inspectDir(o.dir)}
	if o.mode == "reexec" {
		for _, s := range strings.Split(o.life, ",") {
			if s = strings.TrimSpace(s); s != "" {
				n, err := strconv.ParseInt(s, 10, 64)
				if err != nil {
					die("bad -lifetimes")
				}
				res.Lifetimes = append(res.Lifetimes, n)
			}
		}
		func() {
			defer func() {
				if e := recover(); e != nil {
					res.Error = fmt.Sprintf("panic during re-execution: %v", e)
				}
			}()
			reexec(o, res)
		}()
	}
	say("REEXEC", res)
	os.Exit(0)
}

// reexec replays blocks 1..H of the block store of o.dir on a fresh
// application, fresh state and fresh plugins (directories below o.scratch)
// through the real State.ApplyBlock → Angine.BeginBlock/ExecBlock/EndBlock →
// application hooks path — the way gemmill/blockchain's block executer and
// Angine.RecoverFromCrash apply a stored block — and compares, for every
// block, the hashes its header records with the re-executed ones.
func reexec(o *options, res *Reexec) {
	if o.scratch == "" {
		die("reexec needs -scratch")
	}
	srcDB := filepath.Join(o.dir, config.DATADIR)
	dstDB := filepath.Join(o.scratch, config.DATADIR)
	if err := os.MkdirAll(dstDB, 0755); err != nil {
		die("mkdir: %v", err)
	}
	genJSON, err := ioutil.ReadFile(filepath.Join(o.dir, "genesis.json"))
	if err != nil {
		die("genesis: %v", err)
	}
	genDoc := gtypes.GenesisDocFromJSON(genJSON)
	pv, err := gtypes.LoadPrivValidator(filepath.Join(o.dir, "priv_validator.json"))
	if err != nil {
		die("priv validator: %v", err)
	}

	conf := viper.New()
	conf.Set("db_dir", dstDB)
	conf.Set("db_backend", "leveldb")
	conf.Set("block_size", 5000)

	if err := writeFundedGenesis(dstDB); err != nil {
		die("funded genesis: %v", err)
	}
	var app *evm.EVMApp
	openApp := func() {
		a, err := evm.NewEVMApp(conf)
		if err != nil {
			die("NewEVMApp: %v", err)
		}
		if err := a.Start(); err != nil {
			die("app start: %v", err)
		}
		app = a
	}
	openApp()

	stateDB := dbm.NewDB("state", "leveldb", dstDB)
	st := state.MakeGenesisState(stateDB, genDoc)
	sw := p2p.NewSwitch(conf)
	rl := refuse_list.NewRefuseList("leveldb", dstDB)
	ang := gemmill.VerifBlockExecAngine(st, pv, sw, rl, stateDB, conf)
	st.SetBlockExecutable(ang)
	st.SetBlockVerifier(acceptVerifier{}) // header fields are compared below, all of them, instead of stopping at the first
	ang.InitPlugins()
	vm.DefaultAdminContract.SetCallback(func(a *vm.AdminDBApp, tx []byte) error { return ang.ExecAdminTx(a, tx) }) // chain/core.NewNode

	evsw := gtypes.NewEventSwitch()
	evsw.Start()
	commitRes := map[int64]gtypes.CommitResult{} // what the application itself returned for each block
	// the listeners Angine.ConnectApp installs
	gtypes.AddListenerForEvent(evsw, "angine", gtypes.EventStringHookExecute(), func(ed gtypes.TMEventData) {
		data := ed.(gtypes.EventDataHookExecute)
		hk := app.GetAngineHooks().OnExecute
		hk.Sync(data.Height, data.Round, data.Block)
		if r, ok := hk.Result().(gtypes.ExecuteResult); ok {
			data.ResCh <- r
		} else {
			data.ResCh <- gtypes.ExecuteResult{}
		}
	})
	gtypes.AddListenerForEvent(evsw, "angine", gtypes.EventStringHookCommit(), func(ed gtypes.TMEventData) {
		data := ed.(gtypes.EventDataHookCommit)
		hk := app.GetAngineHooks().OnCommit
		hk.Sync(data.Height, data.Round, data.Block)
		if r, ok := hk.Result().(gtypes.CommitResult); ok {
			commitRes[data.Height] = r
			data.ResCh <- r
		} else {
			data.ResCh <- gtypes.CommitResult{}
		}
	})

	bsDB := dbm.NewDB("blockstore", "leveldb", srcDB)
	defer bsDB.Close()
	bs := blockchain.NewBlockStore(bsDB, nil)
	H := bs.Height()
	reopen := map[int64]bool{}
	for _, b := range res.Lifetimes {
		reopen[b] = true
	}
	cmp := func(h int64, field, where string, want, got []byte) {
		if !bytes.Equal(want, got) {
			res.Mismatches = append(res.Mismatches, Mismatch{Height: h, Field: field, Where: where, Want: hx(want), Got: hx(got)})
		}
	}
	for h := int64(1); h <= H; h++ {
		blk := bs.LoadBlock(h)
		meta := bs.LoadBlockMeta(h)
		if blk == nil || meta == nil {
			res.Error = fmt.Sprintf("block %d of %d cannot be loaded", h, H)
			return
		}
		cmp(h, "AppHash", "header", blk.Header.AppHash, st.AppHash)
		cmp(h, "ReceiptsHash", "header", blk.Header.ReceiptsHash, st.ReceiptsHash)
		if r, ok := commitRes[h-1]; ok {
			// the next header carries the application's own results of the block before, whatever the state machine keeps
			cmp(h, "AppHash", "header-vs-application-result", blk.Header.AppHash, r.AppHash)
			cmp(h, "ReceiptsHash", "header-vs-application-result", blk.Header.ReceiptsHash, r.ReceiptsHash)
		}
		cmp(h, "ValidatorsHash", "header", blk.Header.ValidatorsHash, st.Validators.Hash())
		cmp(h, "LastBlockID", "header", blk.Header.LastBlockID.Hash, st.LastBlockID.Hash)
		if err := st.ApplyBlock(evsw, blk, meta.PartsHeader, gemmill.MockMempool{}, 0); err != nil {
			res.Error = fmt.Sprintf("ApplyBlock(%d): %v", h, err)
			return
		}
		st.Save()
		res.Blocks = h
		if reopen[h] {
			app.Stop()
			openApp() // a new process lifetime of the application
		}
	}
	res.FinalApp, res.FinalRcpt, res.FinalVals = hx(st.AppHash), hx(st.ReceiptsHash), hx(st.Validators.Hash())
	in := res.Inspect
	if in.StateHeight == H {
		if in.StateAppHash != res.FinalApp {
			res.Mismatches = append(res.Mismatches, Mismatch{Height: H, Field: "AppHash", Where: "final-state", Want: in.StateAppHash, Got: res.FinalApp})
		}
		if in.StateRcptHash != res.FinalRcpt {
			res.Mismatches = append(res.Mismatches, Mismatch{Height: H, Field: "ReceiptsHash", Where: "final-state", Want: in.StateRcptHash, Got: res.FinalRcpt})
		}
		if in.StateValsHash != res.FinalVals {
			res.Mismatches = append(res.Mismatches, Mismatch{Height: H, Field: "ValidatorsHash", Where: "final-state", Want: in.StateValsHash, Got: res.FinalVals})
		}
	}
	app.Stop()
}
